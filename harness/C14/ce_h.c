/* C14 tier-1 harness: the real communication engine (parsec_mpi_funnelled.c) driven directly.
 *
 * Initialisation (the sound way, see NOTES.md): MPI_Init_thread(SERIALIZED) and parsec_init() once.  parsec_init() provides
 * what the engine needs from the runtime (class system, MCA registry, the context with rank/size/communicator,
 * parsec_comm_es) and creates the communication thread, which then SLEEPS on its condition variable until a context is
 * started (remote_dep_dequeue_on).  This harness never starts the context, so the communication thread never touches MPI
 * or the engine.  The engine instance created for the runtime is finalised at once (mpi_funnelled_fini); then, for every
 * configuration of the session: the four request-window MCA parameters are put in the environment,
 * parsec_comm_engine_init() (= mpi_funnelled_init, which registers and reads those parameters again), the main thread
 * registers its own tags on free tag ids, calls parsec_ce.enable() itself (what scheduling.c does when the main thread is
 * in charge of communications) and is the only caller of progress / send_am / put / get; finally tag_unregister and
 * parsec_ce.fini().  A second parsec_init() in one process is not possible (the class system does not survive
 * parsec_fini), which is why the engine's own fini/init cycle is used between configurations; a failing configuration is
 * re-run alone in a fresh launch by check.py.
 *
 * Every rank runs the same deterministic script (a pure function of n, rank, configuration and phase), so each receiver
 * can compute what it must receive.  Oracle, evaluated on every rank:
 *   - AM: for every (src, tag) every scripted message is delivered exactly once to the callback registered for THAT tag,
 *     with the scripted size and identical bytes; nothing unscripted is delivered (per-(src,tag) order inversions are
 *     counted and reported, not required);
 *   - put/get: the completion callbacks run exactly once per transfer, the put target learns exactly the requested number
 *     of bytes, the target window holds exactly the source bytes when the completion is signalled, the guard bytes on both
 *     sides of the window are untouched (also at the final audit), the source buffers are unmodified, and nothing is
 *     signalled for a transfer that was not requested.
 * A phase that does not complete within --phase-timeout seconds is reported as a hang (a lost message / lost completion).
 */
#include <mpi.h>
#include <stdio.h>
#include <stdlib.h>
#include <string.h>
#include <stdint.h>
#include <stdarg.h>
#include <unistd.h>
#include <sched.h>
#include <time.h>
#include "parsec/runtime.h"
#include "parsec/parsec_comm_engine.h"
#include "parsec/class/list.h"
#include "parsec/datatype.h"
#include "parsec/utils/mca_param.h"

extern parsec_list_t mpi_funnelled_dynamic_sendreq_fifo, mpi_funnelled_dynamic_recvreq_fifo;

#define TAG_D 4u    /* PARSEC_CE_REMOTE_DEP_PUT_END_TAG: never registered by the runtime */
#define TAG_A 9u    /* PARSEC_CE_REMOTE_DEP_MAX_CTRL_TAG .. PARSEC_MAX_REGISTERED_TAGS-1 are free */
#define TAG_B 10u
#define TAG_C 11u   /* harness control messages (put/get handshakes) */
#define LEN_A 65536
#define LEN_B 1001  /* deliberately not a multiple of 16: the engine rounds buffers up to 1008 */
#define LEN_D 4096
#define LEN_C 512
#define NSTREAM 3
static const unsigned stream_tag[NSTREAM] = { TAG_A, TAG_B, TAG_D };
static const size_t stream_len[NSTREAM] = { LEN_A, LEN_B, LEN_D };
#define MAXR 4
#define MAXQ 1024
#define GUARD 64
#define MAXX 512       /* transfers per (peer, kind) */

static int rank, nproc;
static parsec_comm_engine_t *ce;
static double phase_timeout = 25.0;
static int scale = 1, only = 0;
static char outdir[1024] = ".";
static uint8_t *sendbuf;
static int handle_size;
static long my_xfer_calls;        /* put() + get() calls of this process so far = the engine's next data tag (never reset) */

static double now(void) { struct timespec ts; clock_gettime(CLOCK_MONOTONIC, &ts); return ts.tv_sec + 1e-9 * ts.tv_nsec; }

enum { OP_PUT_REQ = 1, OP_GET_OFFER = 2 };
typedef struct { uint32_t op, id, cseq, pad; uint64_t size; uint64_t cb_fn; } ctl_hdr_t;
typedef struct { uint32_t id, kind; uint64_t size; int32_t requester, pad; } rcb_t;     /* travels as r_cb_data */
typedef struct xfer_s {
    int used, peer, id; size_t size; uint8_t *base;   /* base: GUARD | window | GUARD (target side) or source buffer */
    parsec_ce_mem_reg_handle_t h; int local_done, remote_done; uint8_t rcopy[256];
} xfer_t;
typedef struct pend_s { struct pend_s *next; int src; ctl_hdr_t h; uint8_t handle[256]; } pend_t;

/* ---- all per-configuration state lives here and is zeroed before every configuration ---- */
static struct state_s {
    int cfg[4], eff[4];                /* requested / effective posted, tested, dynamic, dynamic_recv */
    int big, mutual;
    int n_short, n_long, n_put, n_get;
    char failmsg[3000]; int nfail; const char *phase_name;
    long am_sent, am_bytes_sent;
    uint8_t am_got[MAXR][NSTREAM][MAXQ];      /* deliveries per decoded q */
    int am_zero[MAXR][NSTREAM];               /* zero-size deliveries */
    int am_lastq[MAXR][NSTREAM];
    long am_delivered, am_bytes_delivered, am_inversions;
    long in_progress_deliveries, max_batch;
    long seen_sendfifo, seen_recvfifo;
    /* [kind 0: put target, 1: put source, 2: get source, 3: get target][peer][id] */
    xfer_t xf[4][MAXR][MAXX];
    long x_expected[4], x_done[4], x_bytes;
    /* data tags seen per peer in the current phase: puts that arrived from the peer (tag chosen by the peer) and my gets from
     * the peer (tag chosen by me): both travel peer -> me on the same communicator */
    int put_tags[MAXR][MAXX], put_code[MAXR][MAXX], n_put_tags[MAXR], get_tags[MAXR][MAXX], get_code[MAXR][MAXX], n_get_tags[MAXR];
    long same_tag_same_direction;
    uint32_t cseq_out[MAXR];
    uint8_t ctl_got[MAXR][2 * MAXX + 8];
    long ctl_delivered;
    pend_t *pend_head, *pend_tail;
    pend_t *gets_head, *gets_tail; long gets_held, gets_hold_until;   /* reproducer only: offers held back until all are in */
    long deferred_puts, progress_calls;
    long exp_am;                       /* cumulative deliveries expected on the stream tags up to the current phase */
    int hang;
    double t_phase0, ptimes[8]; int nphase;
    double t_init, t_total;
} *G;

static void fail(const char *fmt, ...)
{
    va_list ap; va_start(ap, fmt);
    if (G->nfail < 5) {
        size_t l = strlen(G->failmsg);
        int k = snprintf(G->failmsg + l, sizeof(G->failmsg) - l, "%s[rank %d phase %s] ", G->nfail ? " ;; " : "", rank, G->phase_name);
        if (k > 0 && l + k < sizeof(G->failmsg)) vsnprintf(G->failmsg + l + k, sizeof(G->failmsg) - l - k, fmt, ap);
    }
    va_end(ap);
    G->nfail++;
}

/* ---------------- deterministic data ---------------- */
static inline uint64_t mix64(uint64_t x) { x += 0x9e3779b97f4a7c15ull; x = (x ^ (x >> 30)) * 0xbf58476d1ce4e5b9ull; x = (x ^ (x >> 27)) * 0x94d049bb133111ebull; return x ^ (x >> 31); }
static uint64_t seed_of(int kind, int src, int dst, unsigned tag, unsigned q) { return mix64(((uint64_t)kind << 56) ^ ((uint64_t)src << 48) ^ ((uint64_t)dst << 40) ^ ((uint64_t)tag << 32) ^ q); }
static inline uint8_t pat(uint64_t seed, size_t i) { return (uint8_t)(mix64(seed ^ (i >> 3)) >> ((i & 7) * 8)); }
static void fill(uint8_t *b, size_t n, uint64_t seed)
{
    size_t i = 0;
    for (; i + 8 <= n; i += 8) { uint64_t w = mix64(seed ^ (i >> 3)); memcpy(b + i, &w, 8); }
    for (; i < n; i++) b[i] = pat(seed, i);
}
static long first_diff(const uint8_t *b, size_t n, uint64_t seed, size_t from)
{
    size_t i = from;
    for (; i < n && (i & 7); i++) if (b[i] != pat(seed, i)) return (long)i;
    for (; i + 8 <= n; i += 8) { uint64_t w = mix64(seed ^ (i >> 3)); if (memcmp(b + i, &w, 8)) { for (size_t j = i; j < i + 8; j++) if (b[j] != pat(seed, j)) return (long)j; } }
    for (; i < n; i++) if (b[i] != pat(seed, i)) return (long)i;
    return -1;
}

/* ---------------- the AM script ---------------- */
static const int short_sizes_A[] = { 0, 1, 2, 3, 16, 1000, 4000, 0, 1, 333 };           /* all eager (< vader eager limit) */
static const int short_sizes_B[] = { 1001, 0, 1, 1000, 17, 1001, 2, 992, 1, 0 };        /* LEN_B itself included */
static const int short_sizes_D[] = { 8, 4000, 0, 1, 64, 1, 0, 4000, 5, 100 };
static const int long_sizes_A[]  = { 4095, 4096, 4097, 65535, 65536, 30000, 4096, 65536 };   /* around the eager limit, LEN_A itself */
/* q layout per (src,dst,stream), increasing with time: [0,n_short) phase A; stream A only: [n_short, n_short + n_long) phase B
 * or C (long, whichever direction applies to the pair); then n_short more for phase D (mixed). */
static int q_mixed0(int s) { return G->n_short + (s == 0 ? G->n_long : 0); }
static int script_size(int s, int src, int dst, int q)
{
    int v = q + src * 3 + dst;
    if (s == 0 && q >= G->n_short && q < G->n_short + G->n_long) return long_sizes_A[v % 8];
    if (s == 0) return short_sizes_A[v % 10];
    if (s == 1) return short_sizes_B[v % 10];
    return short_sizes_D[v % 10];
}
static int script_count(int s) { return 2 * G->n_short + (s == 0 ? G->n_long : 0); }

static void am_send(int s, int dst, int q)
{
    int sz = script_size(s, rank, dst, q);
    unsigned tag = stream_tag[s];
    fill(sendbuf, sz, seed_of(1, rank, dst, tag, q));
    if (sz >= 1) sendbuf[0] = (uint8_t)(q & 0xff);
    if (sz >= 2) sendbuf[1] = (uint8_t)(q >> 8);
    ce->send_am(ce, tag, dst, sendbuf, sz);
    G->am_sent++; G->am_bytes_sent += sz;
}

static void sample_fifos(void)
{
    if (!parsec_list_nolock_is_empty(&mpi_funnelled_dynamic_sendreq_fifo)) G->seen_sendfifo++;
    if (!parsec_list_nolock_is_empty(&mpi_funnelled_dynamic_recvreq_fifo)) G->seen_recvfifo++;
}

static int am_cb(parsec_comm_engine_t *e, parsec_ce_tag_t tag, void *msg, size_t size, int src, void *cb_data)
{
    int s = (int)(intptr_t)cb_data;      /* the stream this callback was registered for */
    (void)e;
    G->in_progress_deliveries++;
    G->am_delivered++; G->am_bytes_delivered += (long)size;
    if (s < 0 || s >= NSTREAM) { fail("AM callback with foreign cb_data %p", cb_data); return 1; }
    if (tag != stream_tag[s]) { fail("callback of tag %u invoked with tag %lu (src %d size %zu)", stream_tag[s], (unsigned long)tag, src, size); return 1; }
    if (src < 0 || src >= nproc || src == rank) { fail("AM on tag %lu from impossible source %d", (unsigned long)tag, src); return 1; }
    if (size > stream_len[s]) { fail("AM on tag %lu from %d longer (%zu) than the registered length", (unsigned long)tag, src, size); return 1; }
    if (size == 0) { G->am_zero[src][s]++; return 1; }
    const uint8_t *b = (const uint8_t *)msg;
    int q = b[0];
    if (size >= 2) q |= b[1] << 8;
    else {
        /* one byte carries q mod 256: the not-yet-delivered size-1 message with that low byte */
        int found = -1;
        for (int c = q; c < script_count(s); c += 256) if (script_size(s, src, rank, c) == 1 && !G->am_got[src][s][c]) { found = c; break; }
        if (found < 0) for (int c = q; c < script_count(s); c += 256) if (script_size(s, src, rank, c) == 1) { found = c; break; }
        if (found < 0) { fail("1-byte AM on tag %lu from %d with byte %d matches no scripted message", (unsigned long)tag, src, q); return 1; }
        q = found;
    }
    if (q >= script_count(s)) { fail("AM on tag %lu from %d: sequence number %d was never sent (size %zu)", (unsigned long)tag, src, q, size); return 1; }
    if ((int)size != script_size(s, src, rank, q)) { fail("AM tag %lu src %d seq %d: delivered size %zu, sent size %d", (unsigned long)tag, src, q, size, script_size(s, src, rank, q)); return 1; }
    long d = first_diff(b, size, seed_of(1, src, rank, (unsigned)tag, q), 2);
    if (d >= 0) { fail("AM tag %lu src %d seq %d size %zu: payload differs at byte %ld", (unsigned long)tag, src, q, size, d); return 1; }
    if (G->am_got[src][s][q] < 255) G->am_got[src][s][q]++;
    if (G->am_got[src][s][q] > 1) fail("AM tag %lu src %d seq %d size %zu delivered %d times", (unsigned long)tag, src, q, size, G->am_got[src][s][q]);
    if (q < G->am_lastq[src][s]) G->am_inversions++; else G->am_lastq[src][s] = q;
    return 1;
}

/* ---------------- put / get ---------------- */
static const uint8_t guard_byte = 0xA5, stale_byte = 0x5C;
static uint8_t *win_alloc(size_t size)
{
    uint8_t *b = (uint8_t *)malloc(size + 2 * GUARD);
    memset(b, guard_byte, GUARD); memset(b + GUARD, stale_byte, size); memset(b + GUARD + size, guard_byte, GUARD);
    return b;
}
static int guards_ok(const uint8_t *b, size_t size)
{
    for (int i = 0; i < GUARD; i++) if (b[i] != guard_byte || b[GUARD + size + i] != guard_byte) return 0;
    return 1;
}
static void reg(xfer_t *x, uint8_t *mem)
{
    size_t hs;
    ce->mem_register(mem, PARSEC_MEM_TYPE_NONCONTIGUOUS, x->size, MPI_BYTE, x->size, &x->h, &hs);
    if ((int)hs != handle_size) fail("mem_register reports handle size %zu, get_mem_handle_size %d", hs, handle_size);
}
static void send_ctl(int dst, uint32_t op, uint32_t id, size_t size, uintptr_t cb_fn, parsec_ce_mem_reg_handle_t h)
{
    uint8_t buf[sizeof(ctl_hdr_t) + 256];
    ctl_hdr_t c = { op, id, G->cseq_out[dst]++, 0, size, (uint64_t)cb_fn };
    memcpy(buf, &c, sizeof(c)); memcpy(buf + sizeof(c), h, handle_size);
    ce->send_am(ce, TAG_C, dst, buf, sizeof(c) + handle_size);
}

/* -- put: target R asks source S to put `size` bytes into R's window -- */
static int put_remote_done(parsec_comm_engine_t *e, parsec_ce_tag_t tag, void *msg, size_t msg_size, int src, void *cb_data)
{   /* runs on the target when the data has arrived (AM-like signature; msg_size is the received byte count, tag the data tag) */
    (void)e; (void)cb_data;
    rcb_t r; memcpy(&r, msg, sizeof(r));
    sample_fifos();
    if (src < 0 || src >= nproc || r.kind != 0 || r.id >= MAXX || !G->xf[0][src][r.id].used || r.requester != src) { fail("put completion for an unknown transfer (src %d id %u kind %u)", src, r.id, r.kind); return 1; }
    xfer_t *x = &G->xf[0][src][r.id];
    if (G->n_put_tags[src] < MAXX) { static const int code[4] = { 1, 4, 6, 0 };   /* put id range -> phase: A, D, F */
        G->put_code[src][G->n_put_tags[src]] = code[(r.id / G->n_put) & 3]; G->put_tags[src][G->n_put_tags[src]++] = (int)tag; }
    if (++x->remote_done > 1) { fail("put %d<-%d id %d size %zu: remote completion signalled %d times", rank, src, x->id, x->size, x->remote_done); return 1; }
    if (msg_size != x->size) fail("put %d<-%d id %d: %zu bytes arrived, %zu requested", rank, src, x->id, msg_size, x->size);
    long d = first_diff(x->base + GUARD, x->size, seed_of(2, src, rank, 0, x->id), 0);
    if (d >= 0) fail("put %d<-%d id %d size %zu: window differs from the source at byte %ld when completion is signalled", rank, src, x->id, x->size, d);
    if (!guards_ok(x->base, x->size)) fail("put %d<-%d id %d size %zu: guard bytes around the window were overwritten", rank, src, x->id, x->size);
    ce->mem_unregister(&x->h);
    G->x_done[0]++; G->x_bytes += (long)x->size;
    return 1;
}
static int put_local_done(parsec_comm_engine_t *e, parsec_ce_mem_reg_handle_t lreg, ptrdiff_t ldispl, parsec_ce_mem_reg_handle_t rreg,
                          ptrdiff_t rdispl, size_t size, int remote, void *cb_data)
{   /* runs on the source when its send completed */
    (void)e; (void)rreg;
    xfer_t *x = (xfer_t *)cb_data;
    sample_fifos();
    if (++x->local_done > 1) { fail("put %d->%d id %d: local completion signalled %d times", rank, x->peer, x->id, x->local_done); return 1; }
    if (lreg != x->h || remote != x->peer || ldispl != 0 || rdispl != 0 || size != x->size)
        fail("put %d->%d id %d: local completion with foreign arguments (remote %d size %zu/%zu)", rank, x->peer, x->id, remote, size, x->size);
    long d = first_diff(x->base, x->size, seed_of(2, rank, x->peer, 0, x->id), 0);
    if (d >= 0) fail("put %d->%d id %d: the SOURCE buffer was modified (byte %ld)", rank, x->peer, x->id, d);
    ce->mem_unregister(&x->h);
    free(x->base); x->base = NULL;
    G->x_done[1]++;
    return 1;
}
static void serve_put(int src, const ctl_hdr_t *c, const uint8_t *handle)
{
    if (c->id >= MAXX) { fail("put request with id %u", c->id); return; }
    xfer_t *x = &G->xf[1][src][c->id];
    if (x->used) { fail("put request %d<-%d id %u served twice", src, rank, c->id); return; }
    x->used = 1; x->peer = src; x->id = c->id; x->size = c->size;
    x->base = (uint8_t *)malloc(x->size + 8);
    fill(x->base, x->size, seed_of(2, rank, src, 0, x->id));
    reg(x, x->base);
    memcpy(x->rcopy, handle, handle_size);
    rcb_t r = { c->id, 0, c->size, rank, 0 };
    my_xfer_calls++;
    ce->put(ce, x->h, 0, (parsec_ce_mem_reg_handle_t)x->rcopy, 0, x->size, src, put_local_done, x, (parsec_ce_tag_t)c->cb_fn, &r, sizeof(r));
    sample_fifos();
}
/* -- get: source S offers a buffer, target R gets it -- */
static int get_served(parsec_comm_engine_t *e, parsec_ce_tag_t tag, void *msg, size_t msg_size, int src, void *cb_data)
{   /* runs on the source when its send completed (AM-like signature) */
    (void)e; (void)tag; (void)cb_data; (void)msg_size;
    rcb_t r; memcpy(&r, msg, sizeof(r));
    sample_fifos();
    /* this notification is triggered by the completion of a SEND request: the engine forwards the MPI status of that send,
     * whose source and count are undefined - the peer therefore travels in the forwarded callback data */
    src = r.requester;
    if (src < 0 || src >= nproc || r.kind != 2 || r.id >= MAXX || !G->xf[2][src][r.id].used) { fail("get-served notification for an unknown transfer (peer %d id %u kind %u)", src, r.id, r.kind); return 1; }
    xfer_t *x = &G->xf[2][src][r.id];
    if (++x->remote_done > 1) { fail("get %d->%d id %d: served notification signalled %d times", rank, src, x->id, x->remote_done); return 1; }
    if (r.size != x->size) fail("get %d->%d id %d: notification carries size %zu, %zu offered", rank, src, x->id, (size_t)r.size, x->size);
    long d = first_diff(x->base, x->size, seed_of(3, rank, src, 0, x->id), 0);
    if (d >= 0) fail("get %d->%d id %d: the SOURCE buffer was modified (byte %ld)", rank, src, x->id, d);
    ce->mem_unregister(&x->h);
    free(x->base); x->base = NULL;
    G->x_done[2]++;
    return 1;
}
static int get_local_done(parsec_comm_engine_t *e, parsec_ce_mem_reg_handle_t lreg, ptrdiff_t ldispl, parsec_ce_mem_reg_handle_t rreg,
                          ptrdiff_t rdispl, size_t size, int remote, void *cb_data)
{   /* runs on the target when the data has arrived */
    (void)e; (void)rreg;
    xfer_t *x = (xfer_t *)cb_data;
    sample_fifos();
    if (++x->local_done > 1) { fail("get %d<-%d id %d size %zu: completion signalled %d times", rank, x->peer, x->id, x->size, x->local_done); return 1; }
    if (lreg != x->h || remote != x->peer || ldispl != 0 || rdispl != 0 || size != x->size)
        fail("get %d<-%d id %d: completion with foreign arguments (remote %d size %zu/%zu)", rank, x->peer, x->id, remote, size, x->size);
    long d = first_diff(x->base + GUARD, x->size, seed_of(3, x->peer, rank, 0, x->id), 0);
    if (d >= 0) fail("get %d<-%d id %d size %zu: window differs from the source at byte %ld when completion is signalled", rank, x->peer, x->id, x->size, d);
    if (!guards_ok(x->base, x->size)) fail("get %d<-%d id %d size %zu: guard bytes around the window were overwritten", rank, x->peer, x->id, x->size);
    ce->mem_unregister(&x->h);
    G->x_done[3]++; G->x_bytes += (long)x->size;
    return 1;
}
static void do_get(int src, const ctl_hdr_t *c, const uint8_t *handle)
{
    if (c->id >= MAXX) { fail("get offer with id %u", c->id); return; }
    xfer_t *x = &G->xf[3][src][c->id];
    if (x->used) { fail("get offer %d->%d id %u seen twice", src, rank, c->id); return; }
    x->used = 1; x->peer = src; x->id = c->id; x->size = c->size;
    x->base = win_alloc(x->size);
    reg(x, x->base + GUARD);
    memcpy(x->rcopy, handle, handle_size);
    rcb_t r = { c->id, 2, c->size, rank, 0 };
    if (G->n_get_tags[src] < MAXX) { static const int code[4] = { 2, 3, 4, 6 };   /* get id range -> phase: B, C, D, E or F (F is the only one of the two with puts) */
        G->get_code[src][G->n_get_tags[src]] = code[(c->id / G->n_put) & 3]; G->get_tags[src][G->n_get_tags[src]++] = (int)(my_xfer_calls & 0x7fffffff); }
    my_xfer_calls++;
    ce->get(ce, x->h, 0, (parsec_ce_mem_reg_handle_t)x->rcopy, 0, x->size, src, get_local_done, x, (parsec_ce_tag_t)c->cb_fn, &r, sizeof(r));
    sample_fifos();
}

static int ctl_cb(parsec_comm_engine_t *e, parsec_ce_tag_t tag, void *msg, size_t size, int src, void *cb_data)
{
    (void)e;
    ctl_hdr_t c;
    G->in_progress_deliveries++;
    G->ctl_delivered++;
    if (tag != TAG_C || cb_data != (void *)ctl_cb) { fail("control callback invoked with tag %lu", (unsigned long)tag); return 1; }
    if (size != sizeof(c) + (size_t)handle_size || src < 0 || src >= nproc || src == rank) { fail("control message from %d with size %zu", src, size); return 1; }
    memcpy(&c, msg, sizeof(c));
    if (c.cseq >= 2 * MAXX) { fail("control message from %d with sequence %u", src, c.cseq); return 1; }
    if (++G->ctl_got[src][c.cseq] > 1) { fail("control message %u from %d delivered %d times", c.cseq, src, G->ctl_got[src][c.cseq]); return 1; }
    const uint8_t *handle = (const uint8_t *)msg + sizeof(c);
    if (c.op == OP_PUT_REQ) {
        /* same pattern as remote_dep_mpi_save_put_cb: put from inside the callback if the engine can serve, else defer */
        if (ce->can_serve(ce) && NULL == G->pend_head) serve_put(src, &c, handle);
        else {
            pend_t *p = (pend_t *)calloc(1, sizeof(*p)); p->src = src; p->h = c; memcpy(p->handle, handle, handle_size);
            if (G->pend_tail) G->pend_tail->next = p; else G->pend_head = p;
            G->pend_tail = p; G->deferred_puts++;
        }
    } else if (c.op == OP_GET_OFFER) {
        if (G->gets_hold_until > 0) {       /* reproducer of the recv-window deadlock: issue all gets at once, later */
            pend_t *p = (pend_t *)calloc(1, sizeof(*p)); p->src = src; p->h = c; memcpy(p->handle, handle, handle_size);
            if (G->gets_tail) G->gets_tail->next = p; else G->gets_head = p;
            G->gets_tail = p; G->gets_held++;
        } else do_get(src, &c, handle);
    }
    else fail("control message from %d with op %u", src, c.op);
    return 1;
}

static void progress_once(void)
{
    G->in_progress_deliveries = 0;
    ce->progress(ce);
    G->progress_calls++;
    sample_fifos();
    if (G->in_progress_deliveries > G->max_batch) G->max_batch = G->in_progress_deliveries;
    while (G->pend_head && ce->can_serve(ce)) {
        pend_t *p = G->pend_head; G->pend_head = p->next; if (!G->pend_head) G->pend_tail = NULL;
        serve_put(p->src, &p->h, p->handle); free(p);
    }
}

/* ---------------- phases ---------------- */
static void wait_phase(void)
{
    double t0 = now();
    for (;;) {
        progress_once();
        if (G->gets_hold_until > 0 && G->gets_held >= G->gets_hold_until) {
            /* every rank holds all the offers addressed to it: all ranks issue all their gets before anybody progresses again */
            MPI_Barrier(MPI_COMM_WORLD);
            while (G->gets_head) { pend_t *p = G->gets_head; G->gets_head = p->next; do_get(p->src, &p->h, p->handle); free(p); }
            G->gets_tail = NULL; G->gets_hold_until = 0;
        }
        int done = G->am_delivered >= G->exp_am && G->pend_head == NULL;
        for (int k = 0; k < 4; k++) if (G->x_done[k] < G->x_expected[k]) done = 0;
        if (done) break;
        if (now() - t0 > phase_timeout) {
            fail("HANG: after %.0f s: AM deliveries %ld/%ld, put-target %ld/%ld put-source %ld/%ld get-source %ld/%ld get-target %ld/%ld, deferred puts pending %d, sendfifo %s recvfifo %s",
                 phase_timeout, G->am_delivered, G->exp_am, G->x_done[0], G->x_expected[0], G->x_done[1], G->x_expected[1], G->x_done[2], G->x_expected[2], G->x_done[3], G->x_expected[3],
                 G->pend_head != NULL, parsec_list_nolock_is_empty(&mpi_funnelled_dynamic_sendreq_fifo) ? "empty" : "NON-EMPTY",
                 parsec_list_nolock_is_empty(&mpi_funnelled_dynamic_recvreq_fifo) ? "empty" : "NON-EMPTY");
            G->hang = 1;
            return;
        }
        if (G->in_progress_deliveries == 0) sched_yield();
    }
}
static void emit(const char *status);
#define NODIR 9
static void checkpoint(const char *phase, int putdir, int getdir, int cnt)
{   /* survives a crash of the launch: which phase was running, this rank's next data tag, to whom it will send put data and
     * from whom it will request get data in that phase (dir as in phase_put / phase_get; NODIR = none) */
    char fn[1200], fn2[1200];
    snprintf(fn, sizeof(fn), "%s/ckpt%d.json.tmp", outdir, rank); snprintf(fn2, sizeof(fn2), "%s/ckpt%d.json", outdir, rank);
    FILE *f = fopen(fn, "w");
    if (!f) return;
    fprintf(f, "{\"rank\": %d, \"cfg\": [%d, %d, %d, %d], \"phase\": \"%s\", \"next_tag\": %ld, \"serve_to\": [", rank, G->cfg[0], G->cfg[1], G->cfg[2], G->cfg[3], phase, my_xfer_calls);
    for (int p = 0; p < nproc; p++) fprintf(f, "%s%d", p ? ", " : "", (p != rank && putdir != NODIR && (putdir == 0 || (putdir > 0 && p > rank) || (putdir < 0 && p < rank))) ? cnt : 0);
    fprintf(f, "], \"get_from\": [");
    for (int p = 0; p < nproc; p++) fprintf(f, "%s%d", p ? ", " : "", (p != rank && getdir != NODIR && (getdir == 0 || (getdir > 0 && p < rank) || (getdir < 0 && p > rank))) ? cnt : 0);
    fprintf(f, "]}\n");
    fclose(f); rename(fn, fn2);
}
static void end_phase(void)
{
    if (G->hang) { emit("hang"); fflush(NULL); MPI_Abort(MPI_COMM_WORLD, 3); }
    /* every rank has what it expects once all are here: everything sent in this phase has been delivered, nobody has started
     * the next phase.  A few more progress rounds so that a duplicate delivery has a chance to show up (expectations are
     * cumulative, so early messages of the next phase are simply counted). */
    MPI_Barrier(MPI_COMM_WORLD);
    for (int i = 0; i < 20; i++) progress_once();
    if (G->nphase < 8) G->ptimes[G->nphase++] = now() - G->t_phase0;
    G->t_phase0 = now();
}
static long expected_stream_deliveries(int cnt, int nstreams, int dir /* 0 all, +1 only from lower ranks, -1 only from higher */)
{
    long e = 0;
    for (int src = 0; src < nproc; src++) {
        if (src == rank || (dir > 0 && src > rank) || (dir < 0 && src < rank)) continue;
        e += (long)cnt * nstreams;
    }
    return e;
}
static void phase_short(const char *name, int second)
{
    G->phase_name = name;
    G->exp_am += expected_stream_deliveries(G->n_short, NSTREAM, 0);
    int k = 0, every = 1 + 2 * rank;           /* ranks progress at different paces: bursts longer than the posted pool */
    for (int i = 0; i < G->n_short; i++)
        for (int d = 1; d < nproc; d++)
            for (int s0 = 0; s0 < NSTREAM; s0++) {
                int s = (s0 + i) % NSTREAM;
                am_send(s, (rank + d) % nproc, (second ? q_mixed0(s) : 0) + i);
                if (++k % every == 0 && rank != 0) progress_once();    /* rank 0 never progresses while sending */
            }
}
static void phase_long(const char *name, int dir)
{   /* rendezvous-size messages only flow from lower to higher ranks (dir=+1) or the reverse: send_am is a blocking MPI_Send,
     * so two ranks that send long messages to each other without progressing would wait for each other by design. */
    G->phase_name = name;
    G->exp_am += expected_stream_deliveries(G->n_long, 1, dir);
    int q0 = G->n_short;
    for (int q = q0; q < q0 + G->n_long; q++)
        for (int dst = 0; dst < nproc; dst++) {
            if (dst == rank || (dir > 0 && dst < rank) || (dir < 0 && dst > rank)) continue;
            am_send(0, dst, q);
            if ((q + rank) % 3) progress_once();
        }
}
/* transfer sizes: {0, 1, 4 KiB} everywhere; with big >= 1 transfer number 2 of an id range is 1 MiB, with big >= 2 transfer
 * number 5 of the first id range is 4 MiB: long-lived requests hold slots while short ones queue behind them. */
static const size_t xfer_small[] = { 0, 1, 4096, 4096, 1, 0, 1, 4096 };
static size_t xsize(int id, int a, int b)
{
    int range = id / G->n_put, k = id % G->n_put;      /* id ranges: 0 = phase A puts / B gets, 1 = C gets / D puts, 2 = D gets, 3 = E gets */
    if (G->big >= 1 && k == 2 && range != 1) return 1 << 20;
    if (G->big >= 2 && k == 5 && range == 0) return 4 << 20;
    return xfer_small[(id + a + 2 * b) % 8];
}
static void phase_put(const char *name, int id0, int cnt, int dir)
{   /* dir 0: every rank asks every other rank for puts; +1: only from lower ranks (the data flows up the ranks); -1: the reverse */
    G->phase_name = name;
    int peers_in = 0, peers_out = 0;
    for (int d = 1; d < nproc; d++) {
        int s = (rank + d) % nproc;           /* s = the source that will put into my window */
        if (dir == 0 || (dir > 0 && s > rank) || (dir < 0 && s < rank)) peers_out++;    /* ranks whose requests I will serve */
        if (!(dir == 0 || (dir > 0 && s < rank) || (dir < 0 && s > rank))) continue;
        peers_in++;
        for (int id = id0; id < id0 + cnt; id++) {
            xfer_t *x = &G->xf[0][s][id];
            x->used = 1; x->peer = s; x->id = id; x->size = xsize(id, s, rank);
            x->base = win_alloc(x->size);
            reg(x, x->base + GUARD);
            send_ctl(s, OP_PUT_REQ, id, x->size, (uintptr_t)put_remote_done, x->h);
        }
    }
    G->x_expected[0] += (long)cnt * peers_in; G->x_expected[1] += (long)cnt * peers_out;
}
static void phase_get(const char *name, int id0, int cnt, int dir)
{   /* dir 0: every rank offers to every other rank at once (mutual gets); +1: only lower ranks offer to higher ranks (the gets
     * flow upwards, no cycle of ranks waiting for each other's data); -1: the reverse. */
    G->phase_name = name;
    int peers_out = 0, peers_in = 0;
    for (int d = 1; d < nproc; d++) {
        int t = (rank + d) % nproc;
        if ((dir > 0 && t > rank) || (dir < 0 && t < rank) || dir == 0) peers_out++;
        if ((dir > 0 && t < rank) || (dir < 0 && t > rank) || dir == 0) peers_in++;
        if ((dir > 0 && t < rank) || (dir < 0 && t > rank)) continue;
        for (int id = id0; id < id0 + cnt; id++) {
            xfer_t *x = &G->xf[2][t][id];
            x->used = 1; x->peer = t; x->id = id; x->size = xsize(id, rank, t);
            x->base = (uint8_t *)malloc(x->size + 8);
            fill(x->base, x->size, seed_of(3, rank, t, 0, id));
            reg(x, x->base);
            send_ctl(t, OP_GET_OFFER, id, x->size, (uintptr_t)get_served, x->h);
        }
    }
    G->x_expected[2] += (long)cnt * peers_out; G->x_expected[3] += (long)cnt * peers_in;
}

/* ---------------- final audit ---------------- */
static void audit(void)
{
    G->phase_name = "audit";
    for (int src = 0; src < nproc; src++) {
        if (src == rank) continue;
        for (int s = 0; s < NSTREAM; s++) {
            int zeros = 0;
            for (int q = 0; q < script_count(s); q++) {
                int sz = script_size(s, src, rank, q);
                if (sz == 0) { zeros++; continue; }
                if (G->am_got[src][s][q] != 1) fail("AM tag %u src %d seq %d size %d delivered %d times", stream_tag[s], src, q, sz, G->am_got[src][s][q]);
            }
            if (G->am_zero[src][s] != zeros) fail("AM tag %u src %d: %d zero-size messages delivered, %d sent", stream_tag[s], src, G->am_zero[src][s], zeros);
        }
        for (int k = 0; k < 4; k++)
            for (int id = 0; id < MAXX; id++) {
                xfer_t *x = &G->xf[k][src][id];
                if (!x->used) continue;
                int ld = (k == 1 || k == 3) ? 1 : 0, rd = (k == 0 || k == 2) ? 1 : 0;
                if (x->local_done != ld || x->remote_done != rd) fail("transfer kind %d peer %d id %d size %zu: local completions %d (want %d), remote completions %d (want %d)", k, src, id, x->size, x->local_done, ld, x->remote_done, rd);
                if ((k == 0 || k == 3) && x->base) {   /* the windows stay allocated: late writes would show here */
                    long d = first_diff(x->base + GUARD, x->size, seed_of(k == 0 ? 2 : 3, src, rank, 0, id), 0);
                    if (d >= 0 || !guards_ok(x->base, x->size)) fail("transfer kind %d peer %d id %d size %zu: window or guards changed after completion", k, src, id, x->size);
                }
            }
    }
    /* control messages: every rank tells how many it sent to whom */
    unsigned sent_to[MAXR * MAXR]; unsigned mine[MAXR];
    for (int i = 0; i < MAXR; i++) mine[i] = G->cseq_out[i];
    MPI_Allgather(mine, MAXR, MPI_UNSIGNED, sent_to, MAXR, MPI_UNSIGNED, MPI_COMM_WORLD);
    for (int src = 0; src < nproc; src++) {
        if (src == rank) continue;
        unsigned cnt = sent_to[src * MAXR + rank];
        for (unsigned c = 0; c < 2 * MAXX; c++)
            if (G->ctl_got[src][c] != (c < cnt ? 1 : 0)) fail("control message %u from %d delivered %d times (sent %u messages)", c, src, G->ctl_got[src][c], cnt);
    }
}

/* ---------------- results: r<rank>.json = {"rank":..,"n":..,"sessions":[...]} rewritten after every configuration ---------------- */
static char *acc; static size_t acc_len, acc_cap;
static void acc_printf(const char *fmt, ...)
{
    va_list ap; char tmp[8192];
    va_start(ap, fmt); int k = vsnprintf(tmp, sizeof(tmp), fmt, ap); va_end(ap);
    if (k < 0) return;
    if ((size_t)k >= sizeof(tmp)) k = sizeof(tmp) - 1;
    if (acc_len + k + 1 > acc_cap) { acc_cap = 2 * (acc_cap + k) + 4096; acc = (char *)realloc(acc, acc_cap); }
    memcpy(acc + acc_len, tmp, k); acc_len += k; acc[acc_len] = 0;
}
static int nsess_written;
static void flush_results(int complete)
{
    char fn[1200], fn2[1200];
    snprintf(fn, sizeof(fn), "%s/r%d.json.tmp", outdir, rank);
    snprintf(fn2, sizeof(fn2), "%s/r%d.json", outdir, rank);
    FILE *f = fopen(fn, "w");
    if (!f) return;
    fprintf(f, "{\"rank\": %d, \"n\": %d, \"complete\": %d, \"sessions\": [\n%s\n]}\n", rank, nproc, complete, acc ? acc : "");
    fclose(f);
    rename(fn, fn2);
}
static void emit(const char *status)
{
    /* put data that arrived from peer p and get data requested from peer p in the SAME phase with the same data tag */
    G->same_tag_same_direction = 0;
    for (int p = 0; p < nproc; p++)
        for (int a = 0; a < G->n_put_tags[p]; a++) for (int b = 0; b < G->n_get_tags[p]; b++)
            if (G->put_tags[p][a] == G->get_tags[p][b] && G->put_code[p][a] == G->get_code[p][b]) G->same_tag_same_direction++;
    for (char *p = G->failmsg; *p; p++) if (*p == '"' || *p == '\\' || (unsigned char)*p < 32) *p = '\'';
    acc_printf("%s{\"cfg\": [%d, %d, %d, %d], \"eff\": [%d, %d, %d, %d], \"big\": %d, \"mutual\": %d, \"status\": \"%s\", \"phase\": \"%s\", \"failures\": %d, \"message\": \"%s\",\n",
               nsess_written++ ? ",\n" : "", G->cfg[0], G->cfg[1], G->cfg[2], G->cfg[3], G->eff[0], G->eff[1], G->eff[2], G->eff[3], G->big, G->mutual, status, G->phase_name, G->nfail, G->failmsg);
    acc_printf(" \"am_sent\": %ld, \"am_delivered\": %ld, \"am_bytes\": %ld, \"ctl_delivered\": %ld, \"am_inversions\": %ld,\n", G->am_sent, G->am_delivered, G->am_bytes_delivered, G->ctl_delivered, G->am_inversions);
    acc_printf(" \"put_target\": %ld, \"put_source\": %ld, \"get_source\": %ld, \"get_target\": %ld, \"xfer_bytes\": %ld,\n", G->x_done[0], G->x_done[1], G->x_done[2], G->x_done[3], G->x_bytes);
    acc_printf(" \"progress_calls\": %ld, \"max_batch\": %ld, \"seen_sendfifo\": %ld, \"seen_recvfifo\": %ld, \"deferred_puts\": %ld, \"same_tag_same_direction\": %ld,\n", G->progress_calls, G->max_batch, G->seen_sendfifo, G->seen_recvfifo, G->deferred_puts, G->same_tag_same_direction);
    acc_printf(" \"n_short\": %d, \"n_long\": %d, \"n_put\": %d, \"init_s\": %.3f, \"total_s\": %.3f, \"phase_s\": [", G->n_short, G->n_long, G->n_put, G->t_init, now() - G->t_total);
    for (int i = 0; i < G->nphase; i++) acc_printf("%s%.3f", i ? ", " : "", G->ptimes[i]);
    acc_printf("]}");
    flush_results(0);
}

static int mca_int(const char *name)
{
    int idx = parsec_mca_param_find("runtime", NULL, name), v = -1;
    if (idx >= 0) parsec_mca_param_lookup_int(idx, &v);
    return v;
}
static const char *mca_env[4] = { "PARSEC_MCA_runtime_comm_mpi_am_posted_requests", "PARSEC_MCA_runtime_comm_mpi_am_tested_requests",
                                  "PARSEC_MCA_runtime_comm_mpi_dynamic_requests", "PARSEC_MCA_runtime_comm_mpi_dynamic_recv_requests" };
/* "default" (0 on the command line) is passed as the documented default VALUE (6, 0 = derive from posted, 30, 15): a second
 * parsec_init in the same process would otherwise register the previous configuration's values as the new defaults. */
static const int mca_default[4] = { 6, 0, 30, 15 };

static parsec_context_t *parsec_ctx;
static void run_config(const int cfg[4], int big, int mutual)
{
    memset(G, 0, sizeof(*G));
    G->t_total = now();
    G->phase_name = "init"; G->big = big; G->mutual = mutual;
    for (int i = 0; i < 4; i++) {
        char v[32]; G->cfg[i] = cfg[i];
        snprintf(v, sizeof(v), "%d", cfg[i] > 0 ? cfg[i] : mca_default[i]);
        setenv(mca_env[i], v, 1);
    }
    /* (re)initialise the engine: registers the window parameters again (the environment wins) and the two internal tags */
    ce = parsec_comm_engine_init(parsec_ctx);
    if (!ce) { fprintf(stderr, "ce_h: parsec_comm_engine_init failed\n"); MPI_Abort(MPI_COMM_WORLD, 2); }
    G->eff[0] = mca_int("comm_mpi_am_posted_requests"); G->eff[1] = mca_int("comm_mpi_am_tested_requests");
    G->eff[2] = mca_int("comm_mpi_dynamic_requests");   G->eff[3] = mca_int("comm_mpi_dynamic_recv_requests");
    /* the MCA registry must show the requested raw values (harness sanity, exit 2 if not); the effective values are then
     * derived as mpi_funnelled_normalize_params does - they only size the script and label the evidence, never feed the oracle */
    {
        int raw[4];
        for (int i = 0; i < 4; i++) raw[i] = cfg[i] > 0 ? cfg[i] : mca_default[i];
        if (G->eff[0] != raw[0] || G->eff[1] != raw[1] || G->eff[2] != raw[2] || G->eff[3] != raw[3]) {
            fprintf(stderr, "ce_h: configuration %d,%d,%d,%d not in effect (registry says %d,%d,%d,%d)\n", cfg[0], cfg[1], cfg[2], cfg[3], G->eff[0], G->eff[1], G->eff[2], G->eff[3]);
            MPI_Abort(MPI_COMM_WORLD, 2);
        }
        int p = raw[0], t = raw[1] > 0 ? raw[1] : (p / 4 > 0 ? p / 4 : 1), d = raw[2], r = raw[3];
        if (t > p) t = p;
        if (r > d) r = d;
        G->eff[0] = p; G->eff[1] = t; G->eff[2] = d; G->eff[3] = r;
    }
    G->n_short = (3 * G->eff[0] + 2) * scale;      /* > 3 rounds of the posted pool per (src, tag) */
    G->n_long = (G->eff[0] + 2) * scale;
    G->n_put = (G->eff[2] + 3 > 12 ? G->eff[2] + 3 : 12) * scale;     /* more concurrent transfers per peer than dynamic slots */
    G->n_get = G->n_put;
    if (4 * G->n_put > MAXX || script_count(0) > MAXQ) { fprintf(stderr, "ce_h: scale too large\n"); MPI_Abort(MPI_COMM_WORLD, 2); }
    for (int r = 0; r < MAXR; r++) for (int s = 0; s < NSTREAM; s++) G->am_lastq[r][s] = -1;

    /* tags must be registered before enable(): the request arrays are only (re)built there */
    for (int s = 0; s < NSTREAM; s++)
        if (PARSEC_SUCCESS != ce->tag_register(stream_tag[s], am_cb, (void *)(intptr_t)s, stream_len[s])) { fprintf(stderr, "ce_h: tag %u is not free\n", stream_tag[s]); MPI_Abort(MPI_COMM_WORLD, 2); }
    if (PARSEC_SUCCESS != ce->tag_register(TAG_C, ctl_cb, (void *)ctl_cb, LEN_C)) { fprintf(stderr, "ce_h: tag %u is not free\n", TAG_C); MPI_Abort(MPI_COMM_WORLD, 2); }
    ce->enable(ce);        /* collective (communicator duplication): every rank is past its tag registration when it returns */
    handle_size = ce->get_mem_handle_size();
    if (handle_size > 256 || (size_t)handle_size + sizeof(ctl_hdr_t) > LEN_C) { fprintf(stderr, "ce_h: handle size %d\n", handle_size); MPI_Abort(MPI_COMM_WORLD, 2); }
    G->t_phase0 = now(); G->t_init = G->t_phase0 - G->t_total;

    int np = G->n_put;
    /* A: bursts of eager active messages between all pairs + puts between all pairs */
    if (!only || only == 1) { checkpoint("A-short-am+put", 0, NODIR, np); phase_put("A-short-am+put", 0, np, 0); phase_short("A-short-am+put", 0); wait_phase(); end_phase(); }
    /* B / C: rendezvous-size active messages and gets, flowing up the ranks, then down */
    if (!only || only == 2) { checkpoint("B-long-am+get-up", NODIR, +1, np); phase_get("B-long-am+get-up", 0, np, +1); phase_long("B-long-am+get-up", +1); wait_phase(); end_phase(); }
    if (!only || only == 3) { checkpoint("C-long-am+get-down", NODIR, -1, np); phase_get("C-long-am+get-down", np, np, -1); phase_long("C-long-am+get-down", -1); wait_phase(); end_phase(); }
    /* D: everything at once: AM completions, handshakes and data requests share the Testsome array.  Put data flows up the
     * ranks, get data flows down: between two ranks, one direction never carries put data and get data at the same time
     * (their data tags come from different processes' counters: known finding C14-get-put-data-tag-collision). */
    if (!only || only == 4) { checkpoint("D-mixed", +1, -1, np); phase_put("D-mixed", np, np, +1); phase_get("D-mixed", 2 * np, np, -1); phase_short("D-mixed", 1); wait_phase(); end_phase(); }
    /* E: every rank gets from every other rank at once (only where check.py asks for it) */
    if ((mutual & 1) && (!only || only == 5)) {
        checkpoint("E-mutual-get", NODIR, 0, np);
        if (mutual & 4) G->gets_hold_until = (long)np * (nproc - 1);
        phase_get("E-mutual-get", 3 * np, np, 0); wait_phase(); end_phase();
    }
    /* F (reproducer of the tag collision only): put data and get data in the same direction between the same ranks at once */
    if ((mutual & 2) && (!only || only == 6)) {
        checkpoint("F-put+get-same-direction", +1, +1, np);
        phase_put("F-put+get-same-direction", 2 * np, np, +1); phase_get("F-put+get-same-direction", 3 * np, np, +1); wait_phase(); end_phase();
    }
    if (!only) audit();
    emit(G->nfail ? "violation" : "ok");
    MPI_Barrier(MPI_COMM_WORLD);      /* nobody tears its tags down while a peer may still be inside the last phase */
    for (int k = 0; k < 4; k++) for (int r = 0; r < MAXR; r++) for (int id = 0; id < MAXX; id++) { free(G->xf[k][r][id].base); G->xf[k][r][id].base = NULL; }
    for (int s = 0; s < NSTREAM; s++) ce->tag_unregister(stream_tag[s]);
    ce->tag_unregister(TAG_C);
    ce->fini(ce);            /* mpi_funnelled_fini: "the communication engine is completely reinitialized" */
}

int main(int argc, char **argv)
{
    int provided;
    const char *configs = "0,0,0,0,2,1";
    for (int i = 1; i < argc; i++) {
        if (!strcmp(argv[i], "--outdir") && i + 1 < argc) snprintf(outdir, sizeof(outdir), "%s", argv[++i]);
        else if (!strcmp(argv[i], "--phase-timeout") && i + 1 < argc) phase_timeout = atof(argv[++i]);
        else if (!strcmp(argv[i], "--scale") && i + 1 < argc) scale = atoi(argv[++i]);
        else if (!strcmp(argv[i], "--only") && i + 1 < argc) only = atoi(argv[++i]);
        else if (!strcmp(argv[i], "--configs") && i + 1 < argc) configs = argv[++i];    /* "posted,tested,dyn,dynrecv,big,mutual;..." 0 = default */
    }
    MPI_Init_thread(&argc, &argv, MPI_THREAD_SERIALIZED, &provided);
    MPI_Comm_rank(MPI_COMM_WORLD, &rank); MPI_Comm_size(MPI_COMM_WORLD, &nproc);
    if (nproc < 2 || nproc > MAXR) { fprintf(stderr, "ce_h: needs 2..%d ranks\n", MAXR); MPI_Abort(MPI_COMM_WORLD, 2); }
    G = (struct state_s *)calloc(1, sizeof(*G));
    sendbuf = (uint8_t *)malloc(LEN_A + 16);
    flush_results(0);
    /* parsec_init() gives the engine what it needs from the runtime: class system, MCA registry, the context (rank, size,
     * communicator) and parsec_comm_es.  It initialises the engine once on behalf of the runtime; that instance is
     * finalised at once (never enabled) so that every configuration below starts from mpi_funnelled_init(). */
    int pargc = 1; char *pargv_[2] = { argv[0], NULL }; char **pargv = pargv_;
    parsec_ctx = parsec_init(1, &pargc, &pargv);
    if (!parsec_ctx) { fprintf(stderr, "ce_h: parsec_init failed\n"); MPI_Abort(MPI_COMM_WORLD, 2); }
    parsec_ce.fini(&parsec_ce);
    const char *p = configs;
    while (*p) {
        int c[6] = { 0, 0, 0, 0, 0, 0 };
        if (sscanf(p, "%d,%d,%d,%d,%d,%d", &c[0], &c[1], &c[2], &c[3], &c[4], &c[5]) != 6) { fprintf(stderr, "ce_h: bad --configs\n"); MPI_Abort(MPI_COMM_WORLD, 2); }
        run_config(c, c[4], c[5]);
        p = strchr(p, ';');
        if (!p) break;
        p++;
    }
    flush_results(1);
    /* leave through the runtime's own shutdown: it expects an initialised engine */
    parsec_comm_engine_init(parsec_ctx);
    parsec_fini(&parsec_ctx);
    MPI_Finalize();
    return 0;
}
