/* The repo's reduce.jdf, compiled by the freshly built ptgpp (c22red.c, generated next to this file by check.py).
 * Its BODY is only `printf(...)` in the repository (no operator is applied), so the dependency structure of the
 * reduction tree - which tile / partial result feeds which task - is what can be checked: the printf of the BODY is
 * macro-replaced by an integer-add hook that sees the task's real flows A, B (NULL = no right operand) and C. */
#include <stdio.h>
#include <stdlib.h>
#include <string.h>
#include <math.h>
#include "parsec.h"
#include "parsec/parsec_internal.h"
#include "parsec/arena.h"
#include "parsec/data_dist/matrix/matrix.h"
extern void c22_reduce_body(void *A, void *B, void *C, void *neutral, int l, int p, int depth);
#define printf(...) c22_reduce_body(A, B, C, ELEM_NEUTRE, l, p, depth)
#include "c22red.c"
#undef printf
parsec_taskpool_t *c22_reduce_tree_new(parsec_tiled_matrix_t *A, parsec_tiled_matrix_t *R, void *neutral)
{
    parsec_c22red_taskpool_t *tp = parsec_c22red_new(A, R, neutral);
    parsec_arena_datatype_set_type(&tp->arenas_datatypes[PARSEC_c22red_DEFAULT_ADT_IDX], sizeof(int), PARSEC_ARENA_ALIGNMENT_SSE, PARSEC_DATATYPE_NULL);
    return &tp->super;
}
void c22_reduce_tree_free(parsec_taskpool_t *tp)
{
    PARSEC_OBJ_DESTRUCT(&((parsec_c22red_taskpool_t *)tp)->arenas_datatypes[PARSEC_c22red_DEFAULT_ADT_IDX]);
    parsec_taskpool_free(tp);
}
